// dfscan — faithful fact exporter (no rules here).
// rustc_private driver, injected with RUSTC_WORKSPACE_WRAPPER.  For every
// workspace crate it writes ONE file `$DFSCAN_OUT/<crate>-<pid>.jsonl`
// (one write per process) with: ADTs, traits, impls and, for every body owner,
// the `mir_built` body in a compact JSON form with resolved callees.
#![feature(rustc_private)]
#![allow(clippy::all)]

extern crate rustc_abi;
extern crate rustc_driver;
extern crate rustc_hir;
extern crate rustc_interface;
extern crate rustc_middle;
extern crate rustc_span;

use rustc_driver::{Callbacks, Compilation};
use rustc_hir::def::DefKind;
use rustc_hir::def_id::{DefId, LocalDefId};
use rustc_middle::mir::{self, *};
use rustc_middle::ty::print::{with_no_trimmed_paths, with_no_visible_paths, with_resolve_crate_name, PrintTraitRefExt};
use rustc_middle::ty::{self, Instance, Ty, TyCtxt, TypingEnv};
use rustc_span::Span;
use std::fmt::Write as _;

struct Cb;

fn esc(s: &str, out: &mut String) {
    out.push('"');
    for c in s.chars() {
        match c {
            '"' => out.push_str("\\\""),
            '\\' => out.push_str("\\\\"),
            '\n' => out.push_str("\\n"),
            '\r' => out.push_str("\\r"),
            '\t' => out.push_str("\\t"),
            c if (c as u32) < 0x20 => {
                let _ = write!(out, "\\u{:04x}", c as u32);
            }
            c => out.push(c),
        }
    }
    out.push('"');
}
fn q(s: &str) -> String {
    let mut o = String::new();
    esc(s, &mut o);
    o
}

fn dps(tcx: TyCtxt<'_>, d: DefId) -> String {
    with_resolve_crate_name!(with_no_visible_paths!(with_no_trimmed_paths!(tcx.def_path_str(d))))
}
fn tys<'tcx>(t: Ty<'tcx>) -> String {
    with_resolve_crate_name!(with_no_visible_paths!(with_no_trimmed_paths!(format!("{}", t))))
}

struct Ex<'a, 'tcx> {
    tcx: TyCtxt<'tcx>,
    body: &'a Body<'tcx>,
    owner: LocalDefId,
    tenv: TypingEnv<'tcx>,
}

impl<'a, 'tcx> Ex<'a, 'tcx> {
    fn line(&self, sp: Span) -> (usize, bool) {
        let exp = sp.from_expansion();
        let sp = sp.source_callsite();
        let lo = self.tcx.sess.source_map().lookup_char_pos(sp.lo());
        (lo.line, exp)
    }

    fn place(&self, p: &Place<'tcx>) -> String {
        let mut o = String::new();
        let _ = write!(o, "[{},[", p.local.as_usize());
        let mut first = true;
        for (base, elem) in p.iter_projections() {
            if !first {
                o.push(',');
            }
            first = false;
            match elem {
                ProjectionElem::Deref => o.push_str("\"*\""),
                ProjectionElem::Field(f, _) => {
                    let bty = base.ty(&self.body.local_decls, self.tcx);
                    let mut name = String::new();
                    let mut owner = String::new();
                    if let ty::Adt(adt, _) = bty.ty.kind() {
                        owner = dps(self.tcx, adt.did());
                        let vi = bty.variant_index.unwrap_or(rustc_abi::FIRST_VARIANT);
                        if adt.is_enum() || adt.is_struct() || adt.is_union() {
                            if let Some(v) = adt.variants().get(vi) {
                                if let Some(fd) = v.fields.get(f) {
                                    name = fd.name.to_string();
                                }
                            }
                        }
                    }
                    let _ = write!(o, "[\"f\",{},{},{}]", f.as_usize(), q(&name), q(&owner));
                }
                ProjectionElem::Downcast(name, v) => {
                    let n = name.map(|s| s.to_string()).unwrap_or_default();
                    let _ = write!(o, "[\"d\",{},{}]", v.as_usize(), q(&n));
                }
                ProjectionElem::Index(l) => {
                    let _ = write!(o, "[\"i\",{}]", l.as_usize());
                }
                ProjectionElem::ConstantIndex { offset, from_end, .. } => {
                    let _ = write!(o, "[\"ci\",{},{}]", offset, from_end);
                }
                ProjectionElem::Subslice { from, to, from_end } => {
                    let _ = write!(o, "[\"ss\",{},{},{}]", from, to, from_end);
                }
                ProjectionElem::OpaqueCast(_) => o.push_str("[\"oc\"]"),
                ProjectionElem::UnwrapUnsafeBinder(_) => o.push_str("[\"ub\"]"),
            }
        }
        o.push_str("]]");
        o
    }

    fn fndef(&self, def_id: DefId, args: ty::GenericArgsRef<'tcx>) -> String {
        let tcx = self.tcx;
        let mut o = String::new();
        let _ = write!(o, "{{\"def\":{}", q(&dps(tcx, def_id)));
        let a = with_resolve_crate_name!(with_no_visible_paths!(with_no_trimmed_paths!(format!("{:?}", args))));
        let _ = write!(o, ",\"ga\":{}", q(&a));
        // self type (first generic arg if a type) is handy for trait calls
        if let Some(t) = args.types().next() {
            let _ = write!(o, ",\"a0\":{}", q(&tys(t)));
        }
        if let Some(tr) = tcx.trait_of_assoc(def_id) {
            let _ = write!(o, ",\"trait\":{}", q(&dps(tcx, tr)));
        }
        // resolve
        let mut res: Option<DefId> = None;
        if let Ok(nargs) = tcx.try_normalize_erasing_regions(self.tenv, ty::Unnormalized::new_wip(args)) {
            if let Ok(Some(inst)) = Instance::try_resolve(tcx, self.tenv, def_id, nargs) {
                let rd = inst.def_id();
                res = Some(rd);
                // closure call through Fn*/FnOnce shims resolves to the closure def
                let _ = write!(o, ",\"res\":{}", q(&dps(tcx, rd)));
                let k = match inst.def {
                    ty::InstanceKind::Item(_) => "item",
                    ty::InstanceKind::Virtual(..) => "virtual",
                    ty::InstanceKind::ClosureOnceShim { .. } => "closure_once",
                    ty::InstanceKind::FnPtrShim(..) => "fnptr",
                    ty::InstanceKind::DropGlue(..) => "dropglue",
                    ty::InstanceKind::CloneShim(..) => "cloneshim",
                    ty::InstanceKind::Intrinsic(..) => "intrinsic",
                    _ => "other",
                };
                let _ = write!(o, ",\"rk\":\"{}\"", k);
            }
        }
        let l = res.unwrap_or(def_id);
        if l.is_local() {
            o.push_str(",\"local\":true");
        }
        let _ = write!(o, ",\"crate\":{}", q(tcx.crate_name(l.krate).as_str()));
        o.push('}');
        o
    }

    fn constant(&self, c: &ConstOperand<'tcx>) -> String {
        let tcx = self.tcx;
        let ty = c.const_.ty();
        let mut o = String::new();
        let _ = write!(o, "{{\"ty\":{}", q(&tys(ty)));
        match ty.kind() {
            ty::FnDef(def_id, args) => {
                let _ = write!(o, ",\"fn\":{}", self.fndef(*def_id, args));
            }
            _ => {}
        }
        if std::env::var("DFSCAN_DEBUG").is_ok() {
            let _ = write!(o, ",\"ck\":{}", q(&format!("{:?}", c.const_).chars().take(160).collect::<String>()));
        }
        match c.const_ {
            mir::Const::Val(ConstValue::Scalar(mir::interpret::Scalar::Int(i)), _) => {
                self.scalar(i, ty, &mut o);
            }
            mir::Const::Val(ConstValue::ZeroSized, _) => {
                o.push_str(",\"zst\":true");
            }
            mir::Const::Val(ConstValue::Slice { alloc_id, meta }, _) => {
                if let Some(alloc) = tcx.try_get_global_alloc(alloc_id) {
                    if let mir::interpret::GlobalAlloc::Memory(m) = alloc {
                        let len = meta as usize;
                        let inner = m.inner();
                        if len <= inner.len() && len < 4096 {
                            let bytes = inner.inspect_with_uninit_and_ptr_outside_interpreter(0..len);
                            let s = String::from_utf8_lossy(bytes);
                            let _ = write!(o, ",\"str\":{}", q(&s));
                        }
                    }
                }
            }
            mir::Const::Val(cv, _) => {
                // small byte-array constants (format_args templates, b"..." literals)
                let n: Option<usize> = match ty.kind() {
                    ty::Ref(_, inner, _) => match inner.kind() {
                        ty::Array(elem, len) if elem.is_integral() && elem.primitive_size(tcx).bytes() == 1 => {
                            len.try_to_target_usize(tcx).map(|x| x as usize)
                        }
                        _ => None,
                    },
                    _ => None,
                };
                if let Some(n) = n {
                    if n <= 512 {
                        let (aid, off) = match cv {
                            ConstValue::Indirect { alloc_id, offset } => (Some(alloc_id), offset.bytes() as usize),
                            ConstValue::Scalar(mir::interpret::Scalar::Ptr(ptr, _)) => {
                                let (prov, o) = ptr.into_raw_parts();
                                (Some(prov.alloc_id()), o.bytes() as usize)
                            }
                            _ => (None, 0),
                        };
                        if let Some(aid) = aid {
                            if let Some(mir::interpret::GlobalAlloc::Memory(m)) = tcx.try_get_global_alloc(aid) {
                                let inner = m.inner();
                                if off + n <= inner.len() {
                                    let bytes = inner.inspect_with_uninit_and_ptr_outside_interpreter(off..off + n);
                                    let hex: String = bytes.iter().map(|b| format!("{:02x}", b)).collect();
                                    let _ = write!(o, ",\"bytes\":{}", q(&hex));
                                }
                            }
                        }
                    }
                }
            }
            mir::Const::Unevaluated(u, _) => {
                let _ = write!(o, ",\"unev\":{}", q(&dps(tcx, u.def)));
                if let Some(p) = u.promoted {
                    let _ = write!(o, ",\"promoted\":{}", p.as_usize());
                } else if let Some(i) = c.const_.try_eval_scalar_int(tcx, self.tenv) {
                    self.scalar(i, ty, &mut o);
                }
            }
            mir::Const::Ty(_, ct) => {
                if let Some(v) = ct.try_to_value() {
                    if let ty::Ref(_, inner, _) = ty.kind() {
                        if let ty::Array(elem, _) = inner.kind() {
                            if elem.is_integral() {
                                let v2 = ty::Value { ty: *inner, valtree: v.valtree };
                                if let Some(b) = v2.try_to_raw_bytes(tcx) {
                                    if b.len() <= 512 {
                                        let hex: String = b.iter().map(|x| format!("{:02x}", x)).collect();
                                        let _ = write!(o, ",\"bytes\":{}", q(&hex));
                                    }
                                }
                            }
                        }
                    }
                    if matches!(ty.kind(), ty::Ref(_, t, _) if t.is_str()) {
                        if let Some(b) = v.try_to_raw_bytes(tcx) {
                            let s = String::from_utf8_lossy(b);
                            let _ = write!(o, ",\"str\":{}", q(&s));
                        }
                    } else if let Some(i) = v.try_to_leaf() {
                        self.scalar(i, ty, &mut o);
                    }
                } else {
                    let _ = write!(o, ",\"param\":{}", q(&format!("{}", ct)));
                }
            }
        }
        o.push('}');
        o
    }

    fn scalar(&self, i: ty::ScalarInt, ty: Ty<'tcx>, o: &mut String) {
        let size = i.size();
        if size.bytes() == 0 {
            return;
        }
        let signed = matches!(ty.kind(), ty::Int(_));
        if signed {
            let _ = write!(o, ",\"int\":{}", i.to_int(size));
        } else {
            let _ = write!(o, ",\"int\":{}", i.to_uint(size));
        }
    }

    fn operand(&self, op: &Operand<'tcx>) -> String {
        match op {
            Operand::Copy(p) => format!("[\"c\",{}]", self.place(p)),
            Operand::Move(p) => format!("[\"m\",{}]", self.place(p)),
            Operand::Constant(c) => format!("[\"k\",{}]", self.constant(c)),
            _ => "[\"rt\"]".to_string(),
        }
    }

    fn rvalue(&self, rv: &Rvalue<'tcx>) -> String {
        let tcx = self.tcx;
        match rv {
            Rvalue::Use(op, ..) => format!("[\"use\",{}]", self.operand(op)),
            Rvalue::Repeat(op, _) => format!("[\"repeat\",{}]", self.operand(op)),
            Rvalue::Ref(_, bk, p) => {
                let m = matches!(bk, BorrowKind::Mut { .. });
                format!("[\"ref\",{},{}]", self.place(p), m)
            }
            Rvalue::RawPtr(_, p) => format!("[\"rawptr\",{}]", self.place(p)),
            Rvalue::Cast(k, op, t) => {
                format!("[\"cast\",{},{},{}]", q(&format!("{:?}", k)), self.operand(op), q(&tys(*t)))
            }
            Rvalue::BinaryOp(op, ab) => {
                format!("[\"bin\",\"{:?}\",{},{}]", op, self.operand(&ab.0), self.operand(&ab.1))
            }
            Rvalue::UnaryOp(op, a) => format!("[\"un\",\"{:?}\",{}]", op, self.operand(a)),
            Rvalue::Discriminant(p) => {
                let t = p.ty(&self.body.local_decls, tcx).ty;
                let adt = match t.kind() {
                    ty::Adt(a, _) => dps(tcx, a.did()),
                    _ => tys(t),
                };
                format!("[\"discr\",{},{}]", self.place(p), q(&adt))
            }
            Rvalue::Aggregate(kind, ops) => {
                let k = match &**kind {
                    AggregateKind::Array(_) => "[\"array\"]".to_string(),
                    AggregateKind::Tuple => "[\"tuple\"]".to_string(),
                    AggregateKind::Adt(did, vi, _, _, uf) => {
                        let adt = tcx.adt_def(*did);
                        let v = adt.variant(*vi);
                        let mut fnames = String::from("[");
                        if let Some(f) = uf {
                            fnames.push_str(&q(v.fields[*f].name.as_str()));
                        } else {
                            for (i, f) in v.fields.iter().enumerate() {
                                if i > 0 {
                                    fnames.push(',');
                                }
                                fnames.push_str(&q(f.name.as_str()));
                            }
                        }
                        fnames.push(']');
                        format!(
                            "[\"adt\",{},{},{},{}]",
                            q(&dps(tcx, *did)),
                            vi.as_usize(),
                            q(v.name.as_str()),
                            fnames
                        )
                    }
                    AggregateKind::Closure(did, _) => format!("[\"closure\",{}]", q(&dps(tcx, *did))),
                    AggregateKind::Coroutine(did, _) => format!("[\"coroutine\",{}]", q(&dps(tcx, *did))),
                    AggregateKind::CoroutineClosure(did, _) => {
                        format!("[\"coroutine_closure\",{}]", q(&dps(tcx, *did)))
                    }
                    AggregateKind::RawPtr(..) => "[\"rawptr\"]".to_string(),
                };
                let mut o = format!("[\"agg\",{},[", k);
                for (i, op) in ops.iter().enumerate() {
                    if i > 0 {
                        o.push(',');
                    }
                    o.push_str(&self.operand(op));
                }
                o.push_str("]]");
                o
            }
            Rvalue::CopyForDeref(p) => format!("[\"use\",[\"c\",{}]]", self.place(p)),
            Rvalue::ThreadLocalRef(d) => format!("[\"tls\",{}]", q(&dps(tcx, *d))),
            other => format!("[\"other\",{}]", q(&format!("{:?}", other))),
        }
    }

    fn body_json(&self) -> String {
        let body = self.body;
        let mut o = String::new();
        o.push_str("\"locals\":[");
        // names
        let mut names: Vec<Option<String>> = vec![None; body.local_decls.len()];
        let mut captures: Vec<(String, String)> = vec![];
        for vdi in &body.var_debug_info {
            if let VarDebugInfoContents::Place(p) = &vdi.value {
                if p.projection.is_empty() {
                    names[p.local.as_usize()] = Some(vdi.name.to_string());
                } else {
                    captures.push((vdi.name.to_string(), self.place(p)));
                }
            }
        }
        for (i, ld) in body.local_decls.iter().enumerate() {
            if i > 0 {
                o.push(',');
            }
            let _ = write!(o, "[{},", q(&tys(ld.ty)));
            match &names[i] {
                Some(n) => o.push_str(&q(n)),
                None => o.push_str("null"),
            }
            o.push(']');
        }
        o.push_str("],\"caps\":[");
        for (i, (n, p)) in captures.iter().enumerate() {
            if i > 0 {
                o.push(',');
            }
            let _ = write!(o, "[{},{}]", q(n), p);
        }
        o.push_str("],\"bb\":[");
        for (bi, bb) in body.basic_blocks.iter().enumerate() {
            if bi > 0 {
                o.push(',');
            }
            o.push_str("{\"s\":[");
            let mut first = true;
            for st in &bb.statements {
                let s = match &st.kind {
                    StatementKind::Assign(b) => {
                        let (l, exp) = self.line(st.source_info.span);
                        Some(format!(
                            "[\"=\",{},{},{},{}]",
                            self.place(&b.0),
                            self.rvalue(&b.1),
                            l,
                            exp as u8
                        ))
                    }
                    StatementKind::SetDiscriminant { place, variant_index } => Some(format!(
                        "[\"setd\",{},{}]",
                        self.place(place),
                        variant_index.as_usize()
                    )),
                    StatementKind::StorageDead(l) => Some(format!("[\"dead\",{}]", l.as_usize())),
                    _ => None,
                };
                if let Some(s) = s {
                    if !first {
                        o.push(',');
                    }
                    first = false;
                    o.push_str(&s);
                }
            }
            o.push_str("],\"t\":");
            let term = bb.terminator();
            let (l, exp) = self.line(term.source_info.span);
            let t = match &term.kind {
                TerminatorKind::Goto { target } => format!("[\"goto\",{}]", target.as_usize()),
                TerminatorKind::SwitchInt { discr, targets } => {
                    let mut s = format!("[\"switch\",{},[", self.operand(discr));
                    for (i, (v, t)) in targets.iter().enumerate() {
                        if i > 0 {
                            s.push(',');
                        }
                        let _ = write!(s, "[{},{}]", v, t.as_usize());
                    }
                    let _ = write!(s, "],{}]", targets.otherwise().as_usize());
                    s
                }
                TerminatorKind::Return => "[\"ret\"]".to_string(),
                TerminatorKind::Unreachable => "[\"unreachable\"]".to_string(),
                TerminatorKind::UnwindResume => "[\"resume\"]".to_string(),
                TerminatorKind::UnwindTerminate(_) => "[\"terminate\"]".to_string(),
                TerminatorKind::Drop { place, target, .. } => {
                    format!("[\"drop\",{},{},{}]", self.place(place), target.as_usize(), l)
                }
                TerminatorKind::Call { func, args, destination, target, fn_span, .. } => {
                    let f = match func {
                        Operand::Constant(c) => match c.const_.ty().kind() {
                            ty::FnDef(d, a) => self.fndef(*d, a),
                            _ => format!("{{\"ptr\":{}}}", self.operand(func)),
                        },
                        _ => format!("{{\"ptr\":{}}}", self.operand(func)),
                    };
                    let mut s = format!("[\"call\",{},[", f);
                    for (i, a) in args.iter().enumerate() {
                        if i > 0 {
                            s.push(',');
                        }
                        s.push_str(&self.operand(&a.node));
                    }
                    let (fl, fexp) = self.line(*fn_span);
                    let _ = write!(
                        s,
                        "],{},{},{},{}]",
                        self.place(destination),
                        target.map(|t| t.as_usize() as i64).unwrap_or(-1),
                        fl,
                        (fexp || exp) as u8
                    );
                    s
                }
                TerminatorKind::TailCall { .. } => "[\"tailcall\"]".to_string(),
                TerminatorKind::Assert { cond, expected, target, .. } => format!(
                    "[\"assert\",{},{},{}]",
                    self.operand(cond),
                    expected,
                    target.as_usize()
                ),
                TerminatorKind::Yield { value, resume, drop, .. } => format!(
                    "[\"yield\",{},{},{}]",
                    self.operand(value),
                    resume.as_usize(),
                    drop.map(|t| t.as_usize() as i64).unwrap_or(-1)
                ),
                TerminatorKind::CoroutineDrop => "[\"codrop\"]".to_string(),
                TerminatorKind::FalseEdge { real_target, .. } => {
                    format!("[\"goto\",{}]", real_target.as_usize())
                }
                TerminatorKind::FalseUnwind { real_target, .. } => {
                    format!("[\"goto\",{}]", real_target.as_usize())
                }
                TerminatorKind::InlineAsm { .. } => "[\"asm\"]".to_string(),
            };
            o.push_str(&t);
            if bb.is_cleanup {
                o.push_str(",\"cu\":1");
            }
            o.push('}');
        }
        o.push(']');
        let _ = self.owner;
        o
    }
}


fn emit_adt<'tcx>(tcx: TyCtxt<'tcx>, did: DefId, ext: bool, loc: &dyn Fn(Span) -> (String, usize), out: &mut String) {
    let adt = tcx.adt_def(did);
    let (f, l) = if ext { (String::new(), 0) } else { loc(tcx.def_span(did)) };
    let mut o = format!(
        "{{\"rec\":\"adt\",\"path\":{},\"kind\":\"{}\",\"file\":{},\"line\":{},\"ext\":{},\"variants\":[",
        q(&dps(tcx, did)),
        if adt.is_enum() { "enum" } else if adt.is_struct() { "struct" } else { "union" },
        q(&f),
        l,
        ext
    );
    for (vi, v) in adt.variants().iter_enumerated() {
        if vi.as_usize() > 0 {
            o.push(',');
        }
        let discr = if adt.is_enum() { adt.discriminant_for_variant(tcx, vi).val as i128 } else { 0 };
        let _ = write!(o, "{{\"name\":{},\"discr\":{},\"fields\":[", q(v.name.as_str()), discr);
        for (fi, fd) in v.fields.iter().enumerate() {
            if fi > 0 {
                o.push(',');
            }
            let fty = tcx.type_of(fd.did).instantiate_identity().skip_norm_wip();
            let _ = write!(
                o,
                "[{},{},{}]",
                q(fd.name.as_str()),
                q(&tys(fty)),
                q(&format!("{:?}", fd.vis).chars().take(40).collect::<String>())
            );
        }
        o.push_str("]}");
    }
    o.push_str("]}");
    out.push_str(&o);
    out.push('\n');
}

fn export<'tcx>(tcx: TyCtxt<'tcx>) {
    let out_dir = match std::env::var("DFSCAN_OUT") {
        Ok(d) => d,
        Err(_) => return,
    };
    let krate = tcx.crate_name(rustc_hir::def_id::LOCAL_CRATE).to_string();
    // cargo passes CARGO_PRIMARY_PACKAGE for workspace members only (wrapper is workspace-only anyway)
    let run_id = std::env::var("DFSCAN_RUN").unwrap_or_default();
    let mut out = String::with_capacity(1 << 24);
    let _ = writeln!(
        out,
        "{{\"rec\":\"crate\",\"name\":{},\"run\":{},\"is_test\":{}}}",
        q(&krate),
        q(&run_id),
        tcx.sess.is_test_crate()
    );
    let sm = tcx.sess.source_map();
    let loc = |sp: Span| -> (String, usize) {
        let sp = sp.source_callsite();
        let lo = sm.lookup_char_pos(sp.lo());
        let f = match &lo.file.name {
            rustc_span::FileName::Real(r) => match r.local_path() {
                Some(p) => p.to_string_lossy().to_string(),
                None => format!("{:?}", lo.file.name),
            },
            n => format!("{:?}", n),
        };
        (f, lo.line)
    };

    let mut n_adt = 0usize;
    let mut n_impl = 0usize;
    let mut n_fn = 0usize;
    let mut n_stolen = 0usize;
    let mut n_promoted_stage = 0usize;
    // clone every mir_built body first: later queries (const eval, resolve) may steal them
    let mut bodies: Vec<(LocalDefId, Body<'tcx>)> = Vec::new();
    for owner in tcx.hir_body_owners() {
        let dk = tcx.def_kind(owner.to_def_id());
        if !matches!(
            dk,
            DefKind::Fn | DefKind::AssocFn | DefKind::Closure | DefKind::Const { .. } | DefKind::AssocConst { .. } | DefKind::Static { .. }
        ) {
            continue;
        }
        let steal = tcx.mir_built(owner);
        if steal.is_stolen() {
            // borrowck of this body already ran (e.g. to infer an opaque type needed elsewhere): take the
            // next stage, which is the same body after const promotion (still before drop elaboration
            // and before the coroutine transform)
            let (prom, _) = tcx.mir_promoted(owner);
            if prom.is_stolen() {
                // const items that were already const-evaluated: their values reach the users through
                // try_eval_scalar_int; a missing *function* body would be a hole and fails the scan
                if matches!(dk, DefKind::Const { .. } | DefKind::AssocConst { .. } | DefKind::Static { .. }) {
                    continue;
                }
                eprintln!("dfscan: body already stolen: {}", dps(tcx, owner.to_def_id()));
                n_stolen += 1;
                continue;
            }
            n_promoted_stage += 1;
            bodies.push((owner, prom.borrow().clone()));
            continue;
        }
        bodies.push((owner, steal.borrow().clone()));
    }
    // ---- items
    for id in tcx.hir_free_items() {
        let did = id.owner_id.to_def_id();
        match tcx.def_kind(did) {
            DefKind::Struct | DefKind::Enum | DefKind::Union => {
                emit_adt(tcx, did, false, &loc, &mut out);
                n_adt += 1;
            }
            DefKind::Trait => {
                let (f, l) = loc(tcx.def_span(did));
                let mut o = format!(
                    "{{\"rec\":\"trait\",\"path\":{},\"file\":{},\"line\":{},\"methods\":[",
                    q(&dps(tcx, did)),
                    q(&f),
                    l
                );
                let mut first = true;
                for it in tcx.associated_items(did).in_definition_order() {
                    if !it.is_fn() {
                        continue;
                    }
                    if !first {
                        o.push(',');
                    }
                    first = false;
                    let _ = write!(o, "[{},{}]", q(it.opt_name().map(|s| s.to_string()).unwrap_or_default().as_str()), it.defaultness(tcx).has_value());
                }
                o.push_str("]}");
                out.push_str(&o);
                out.push('\n');
            }
            DefKind::Impl { of_trait } => {
                let (f, l) = loc(tcx.def_span(did));
                let self_ty = tcx.type_of(did).instantiate_identity().skip_norm_wip();
                let self_adt = match self_ty.kind() {
                    ty::Adt(a, _) => dps(tcx, a.did()),
                    _ => String::new(),
                };
                let mut o = format!(
                    "{{\"rec\":\"impl\",\"self\":{},\"self_adt\":{},\"file\":{},\"line\":{}",
                    q(&tys(self_ty)),
                    q(&self_adt),
                    q(&f),
                    l
                );
                if of_trait {
                    let tr = tcx.impl_trait_ref(did).instantiate_identity().skip_norm_wip();
                    let _ = write!(
                        o,
                        ",\"trait\":{},\"trait_ref\":{}",
                        q(&dps(tcx, tr.def_id)),
                        q(&with_resolve_crate_name!(with_no_visible_paths!(with_no_trimmed_paths!(format!("{}", tr.print_only_trait_path())))))
                    );
                }
                if tcx.is_automatically_derived(did) {
                    o.push_str(",\"derived\":true");
                }
                o.push_str(",\"items\":[");
                let mut first = true;
                for it in tcx.associated_items(did).in_definition_order() {
                    if !first {
                        o.push(',');
                    }
                    first = false;
                    let _ = write!(
                        o,
                        "[{},{},{}]",
                        q(it.opt_name().map(|s| s.to_string()).unwrap_or_default().as_str()),
                        q(&dps(tcx, it.def_id)),
                        it.is_fn()
                    );
                }
                o.push_str("]}");
                out.push_str(&o);
                out.push('\n');
                n_impl += 1;
            }
            _ => {}
        }
    }
    // ---- bodies
    for (owner, body) in bodies.iter() {
        let owner = *owner;
        let did = owner.to_def_id();
        let dk = tcx.def_kind(did);
        let kind = match dk {
            DefKind::Fn => "fn",
            DefKind::AssocFn => "assoc_fn",
            DefKind::Closure => "closure",
            DefKind::Const { .. } | DefKind::AssocConst { .. } => "const",
            DefKind::Static { .. } => "static",
            _ => continue, // anon consts, inline consts etc.
        };
        let tenv = TypingEnv::post_analysis(tcx, did);
        let ex = Ex { tcx, body, owner, tenv };
        let (f, l) = loc(tcx.def_span(did));
        let mut o = format!(
            "{{\"rec\":\"fn\",\"d\":{},\"u\":{},\"k\":\"{}\",\"file\":{},\"line\":{}",
            q(&dps(tcx, did)),
            q(&tcx.def_path(did).to_string_no_crate_verbose()),
            kind,
            q(&f),
            l
        );
        // signature and unique callee names first: the python index reads them without parsing the body
        o.push_str(",\"sig\":[");
        for i in 0..=body.arg_count {
            if i > 0 {
                o.push(',');
            }
            o.push_str(&q(&tys(body.local_decls[Local::from_usize(i)].ty)));
        }
        o.push_str("],\"callees\":[");
        {
            let mut seen: Vec<String> = Vec::new();
            for bb in body.basic_blocks.iter() {
                if let TerminatorKind::Call { func: Operand::Constant(c), .. } = &bb.terminator().kind {
                    if let ty::FnDef(d, a) = c.const_.ty().kind() {
                        let mut name = dps(tcx, *d);
                        if let Ok(nargs) = tcx.try_normalize_erasing_regions(tenv, ty::Unnormalized::new_wip(*a)) {
                            if let Ok(Some(inst)) = Instance::try_resolve(tcx, tenv, *d, nargs) {
                                name = dps(tcx, inst.def_id());
                            }
                        }
                        if !seen.contains(&name) {
                            seen.push(name);
                        }
                    }
                }
            }
            // function items used as values (`x.map(make_cooperative)`, `.for_each(helper)`) are call-graph edges too
            {
                use rustc_middle::mir::visit::Visitor;
                struct FnRefs<'a, 'tcx> {
                    tcx: TyCtxt<'tcx>,
                    tenv: TypingEnv<'tcx>,
                    seen: &'a mut Vec<String>,
                }
                impl<'a, 'tcx> Visitor<'tcx> for FnRefs<'a, 'tcx> {
                    fn visit_const_operand(&mut self, c: &ConstOperand<'tcx>, _l: Location) {
                        if let ty::FnDef(d, a) = c.const_.ty().kind() {
                            let mut name = dps(self.tcx, *d);
                            if let Ok(nargs) = self.tcx.try_normalize_erasing_regions(self.tenv, ty::Unnormalized::new_wip(*a)) {
                                if let Ok(Some(inst)) = Instance::try_resolve(self.tcx, self.tenv, *d, nargs) {
                                    name = dps(self.tcx, inst.def_id());
                                }
                            }
                            if !self.seen.contains(&name) {
                                self.seen.push(name);
                            }
                        }
                    }
                }
                let mut v = FnRefs { tcx, tenv, seen: &mut seen };
                v.visit_body(body);
            }
            for (i, n) in seen.iter().enumerate() {
                if i > 0 {
                    o.push(',');
                }
                o.push_str(&q(n));
            }
        }
        o.push_str("],\"aggs\":[");
        {
            let mut seen: Vec<String> = Vec::new();
            for bb in body.basic_blocks.iter() {
                for st in &bb.statements {
                    if let StatementKind::Assign(b) = &st.kind {
                        if let Rvalue::Aggregate(k, _) = &b.1 {
                            if let AggregateKind::Adt(d, ..) = &**k {
                                let n = dps(tcx, *d);
                                if !seen.contains(&n) {
                                    seen.push(n);
                                }
                            }
                        }
                    }
                }
            }
            for (i, n) in seen.iter().enumerate() {
                if i > 0 {
                    o.push(',');
                }
                o.push_str(&q(n));
            }
        }
        let _ = write!(o, "],\"argc\":{}", body.arg_count);
        if body.coroutine.is_some() {
            o.push_str(",\"coroutine\":true");
        }
        if matches!(dk, DefKind::Fn | DefKind::AssocFn) {
            let _ = write!(o, ",\"pub\":{}", tcx.visibility(did).is_public());
            let _ = write!(o, ",\"async\":{}", tcx.asyncness(did).is_async());
        }
        if matches!(dk, DefKind::Closure) {
            let p = tcx.typeck_root_def_id(did);
            let _ = write!(o, ",\"root\":{}", q(&dps(tcx, p)));
            let p = tcx.parent(did);
            let _ = write!(o, ",\"parent\":{}", q(&dps(tcx, p)));
        }
        if matches!(dk, DefKind::AssocFn | DefKind::AssocConst { .. }) {
            let p = tcx.parent(did);
            if let DefKind::Impl { of_trait } = tcx.def_kind(p) {
                let self_ty = tcx.type_of(p).instantiate_identity().skip_norm_wip();
                let _ = write!(o, ",\"impl_self\":{}", q(&tys(self_ty)));
                if let ty::Adt(a, _) = self_ty.kind() {
                    let _ = write!(o, ",\"impl_adt\":{}", q(&dps(tcx, a.did())));
                }
                if of_trait {
                    let tr = tcx.impl_trait_ref(p).instantiate_identity().skip_norm_wip();
                    let _ = write!(o, ",\"impl_trait\":{}", q(&dps(tcx, tr.def_id)));
                }
            } else if let DefKind::Trait = tcx.def_kind(p) {
                let _ = write!(o, ",\"in_trait\":{}", q(&dps(tcx, p)));
            }
            let _ = write!(o, ",\"name\":{}", q(tcx.item_name(did).as_str()));
            if tcx.is_automatically_derived(p) {
                o.push_str(",\"derived\":true");
            }
        }
        o.push(',');
        o.push_str(&ex.body_json());
        o.push('}');
        out.push_str(&o);
        out.push('\n');
        n_fn += 1;
    }
    // external enums that the bodies switch on or construct (variant tables are needed by the analyses)
    {
        let mut ext: Vec<DefId> = Vec::new();
        for (_, body) in bodies.iter() {
            for bb in body.basic_blocks.iter() {
                for st in &bb.statements {
                    if let StatementKind::Assign(b) = &st.kind {
                        let d = match &b.1 {
                            Rvalue::Discriminant(p) => match p.ty(&body.local_decls, tcx).ty.kind() {
                                ty::Adt(a, _) => Some(a.did()),
                                _ => None,
                            },
                            Rvalue::Aggregate(k, _) => match &**k {
                                AggregateKind::Adt(d, ..) => Some(*d),
                                _ => None,
                            },
                            _ => None,
                        };
                        if let Some(d) = d {
                            // enums (switched on / constructed) and structs built by a struct literal (foreign wire messages: their
                            // field names are needed by the encoder/decoder coverage rules)
                            let is_lit_struct = matches!(&b.1, Rvalue::Aggregate(..)) && tcx.adt_def(d).is_struct();
                            if !d.is_local() && (tcx.adt_def(d).is_enum() || is_lit_struct) && !ext.contains(&d) {
                                ext.push(d);
                            }
                        }
                    }
                }
            }
        }
        for d in ext {
            emit_adt(tcx, d, true, &loc, &mut out);
        }
    }
    let _ = writeln!(
        out,
        "{{\"rec\":\"end\",\"name\":{},\"adts\":{},\"impls\":{},\"fns\":{},\"promoted_stage\":{},\"stolen\":{}}}",
        q(&krate),
        n_adt,
        n_impl,
        n_fn,
        n_promoted_stage,
        n_stolen
    );
    let kind = if tcx.sess.is_test_crate() { "test" } else { "lib" };
    let path = format!("{}/{}-{}-{}.jsonl", out_dir, krate, kind, std::process::id());
    let tmp = format!("{}.tmp", path);
    std::fs::write(&tmp, out.as_bytes()).expect("dfscan: write failed");
    std::fs::rename(&tmp, &path).expect("dfscan: rename failed");
    eprintln!("dfscan: {} adts={} impls={} fns={} -> {}", krate, n_adt, n_impl, n_fn, path);
}

impl Callbacks for Cb {
    fn after_expansion<'tcx>(&mut self, _c: &rustc_interface::interface::Compiler, tcx: TyCtxt<'tcx>) -> Compilation {
        // only export crates selected by DFSCAN_ONLY (comma list / prefix), default: all
        let krate = tcx.crate_name(rustc_hir::def_id::LOCAL_CRATE).to_string();
        let only = std::env::var("DFSCAN_ONLY").unwrap_or_default();
        let sel = only.is_empty() || only.split(',').any(|p| krate == p || (p.ends_with('*') && krate.starts_with(&p[..p.len() - 1])));
        if sel && krate != "build_script_build" {
            export(tcx);
        }
        Compilation::Continue
    }
}

fn main() {
    let mut args: Vec<String> = std::env::args().collect();
    // RUSTC_WORKSPACE_WRAPPER: argv[1] is the real rustc path
    if args.len() > 1 && (args[1].ends_with("rustc") || args[1].contains("/rustc")) {
        args.remove(1);
    }
    rustc_driver::run_compiler(&args, &mut Cb);
}
